"""Kernel self-test run by MANIFEST.setup_cmd: builder identity, reference sanity, schema."""
import json
import sys


def main():
    import unified_planning  # noqa: F401  (must import from /repo's working tree)
    from mc.gen import uprob, problem as gp
    from mc.ref.seqsem import RefProblem

    n = 0
    for level in (0, 1):
        for cid, ps in uprob.instances(level, uprob.SLOT_NAMES):
            try:
                prob, _ = gp.build_problem(ps)
            except Exception:
                continue
            ps2 = gp.problem_to_spec(prob)
            for key in ps:
                if key in ("ifuns",):
                    continue
                if ps[key] != ps2.get(key):
                    print("SELFTEST FAIL: spec->build->extract differs on %r for %r" % (key, cid))
                    return 2
            RefProblem(ps).initial_state()
            n += 1
    import jsonschema

    jsonschema.Draft202012Validator.check_schema(json.load(open("/root/.vp/EVIDENCE.schema.json")))
    print("selftest ok: %d specs round-tripped" % n)
    return 0


if __name__ == "__main__":
    sys.exit(main())
