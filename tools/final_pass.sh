#!/bin/bash
# tools/final_pass.sh [seeds...]: every claimed check's quick tier on /repo under each VERIF_SEED
# (default 0 2 1, so that the evidence left on disk is the seed-1 run), two checks at a time.
cd /verif
mkdir -p /tmp/final_pass
ids=$(cat mc/ready.txt)
for seed in ${@:-0 2 1}; do
  echo "$ids" | xargs -P ${PAR:-1} -I{} bash -c "VERIF_SEED=$seed ./check {} > /tmp/final_pass/{}_$seed.log 2>&1; echo \"{} seed=$seed rc=\$? \$(grep -c '^VIOLATION' /tmp/final_pass/{}_$seed.log) violations \$(grep -o 'cap_hit=[A-Za-z]* wall=[0-9.]*s' /tmp/final_pass/{}_$seed.log | tail -1)\""
done
