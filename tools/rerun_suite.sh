#!/bin/bash
# tools/rerun_suite.sh <PROP> <n> : re-run only the repository suite for a kept seed and patch result.txt
P=$1; N=$2; D=/verif/seeded/$P-$N; WT=/tmp/suitewt_$(echo ${P}x$N | tr "0-9" "a-j")
git -C /repo worktree remove --force $WT >/dev/null 2>&1
git -C /repo worktree add -f $WT HEAD -q || exit 2
git -C $WT apply $D/patch.diff || exit 1
( cd $WT && PYTHONPATH=$WT timeout 5400 /venv/bin/python -m pytest -q -p no:cacheprovider --timeout=900 2>&1 | tail -25 > $D/suite_tail.txt )
L=$(tail -1 $D/suite_tail.txt)
sed -i "s|^suite: .*|suite: $L (re-run)|" $D/result.txt
grep "^FAILED" $D/suite_tail.txt
git -C /repo worktree remove --force $WT
echo "$P-$N $L"
