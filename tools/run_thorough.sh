#!/bin/bash
# tools/run_thorough.sh ID...   (sequential thorough runs; logs under thorough_logs/)
mkdir -p thorough_logs
for c in "$@"; do
  /usr/bin/time -f "%e s wall %U s user" ./check $c --tier thorough > thorough_logs/$c.log 2>&1
  echo "$c rc=$? $(grep -c '^VIOLATION' thorough_logs/$c.log) violations; $(tail -3 thorough_logs/$c.log | grep -o 'cap_hit=[A-Za-z]* wall=[0-9.]*s')"
done
