"""Regenerates seeded/TABLE.md from seeded/*/meta.json (+ optional seeded/*/note.txt)."""
import glob, json, os
rows = []
for d in sorted(glob.glob("/verif/seeded/*-*")):
    mp = os.path.join(d, "meta.json")
    if not os.path.exists(mp):
        continue
    m = json.load(open(mp))
    note = ""
    np_ = os.path.join(d, "note.txt")
    if os.path.exists(np_):
        note = open(np_).read().strip().replace("\n", " ")
    rows.append((m["seed"], (m.get("summary") or "")[:160].replace("|", "/").replace("\n", " "), ", ".join(m.get("caught_by") or []) or "MISSED", note))
with open("/verif/seeded/TABLE.md", "w") as f:
    f.write("| seed | change | caught by | note |\n|---|---|---|---|\n")
    for r in rows:
        f.write("| %s | %s | %s | %s |\n" % r)
print(len(rows), "seeds")
