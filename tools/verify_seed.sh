#!/bin/bash
# tools/verify_seed.sh <PROP> <n> <outdir of the mutation agent> [check ids...]
# Confirms a candidate seeded change in a scratch worktree (never in /repo):
#   1. patch applies to /repo HEAD, library imports
#   2. demo.py exits non-zero with the change and 0 without it
#   3. the repository's own test suite passes with the change (baseline command)
#   4. runs the given checks (default: <PROP>) against the changed tree and records verdicts
# Writes /verif/seeded/<PROP>-<n>/{patch.diff,demo.py,meta.json,result.txt}
set -u
P=$1; N=$2; SRC=$3; shift 3
CHECKS=${@:-$P}
D=/verif/seeded/$P-$N
WT=/tmp/seedwt_$(echo ${P}x$N | tr "0-9" "a-j")
mkdir -p $D
cp $SRC/$N/patch.diff $D/patch.diff; cp $SRC/$N/demo.py $D/demo.py; cp $SRC/$N/meta.json $D/agent_meta.json 2>/dev/null
git -C /repo worktree remove --force $WT >/dev/null 2>&1
git -C /repo worktree add -f $WT HEAD -q || exit 2
R=$D/result.txt; OLD_SUITE=$(grep "^suite: " $R 2>/dev/null | head -1); : > $R
echo "repo_head=$(git -C /repo rev-parse --short HEAD)" >> $R
( cd $WT && PYTHONPATH=$WT /venv/bin/python $D/demo.py >/dev/null 2>&1; echo "demo_without_change_rc=$?" >> $R )
if ! git -C $WT apply $D/patch.diff 2>>$R; then echo "patch_applies=no" >> $R; git -C /repo worktree remove --force $WT; exit 1; fi
echo "patch_applies=yes" >> $R
( cd $WT && PYTHONPATH=$WT /venv/bin/python -c "import unified_planning" >/dev/null 2>&1; echo "import_rc=$?" >> $R )
( cd $WT && PYTHONPATH=$WT /venv/bin/python $D/demo.py >/dev/null 2>&1; echo "demo_with_change_rc=$?" >> $R )
if [ "${SKIP_SUITE:-0}" = "1" ] && [ -n "$OLD_SUITE" ]; then echo "$OLD_SUITE (from the earlier confirmation run)" >> $R; fi
if [ "${SKIP_SUITE:-0}" != "1" ]; then
  ( cd $WT && PYTHONPATH=$WT timeout 5400 /venv/bin/python -m pytest -q -p no:cacheprovider --timeout=3000 2>&1 | tail -25 > $D/suite_tail.txt; tail -1 $D/suite_tail.txt | sed "s/^/suite: /" >> $R; grep "^FAILED" $D/suite_tail.txt >> $R )
fi
for c in $CHECKS; do
  out=$(cd /verif && VERIF_REPO=$WT VERIF_JOBS=${VERIF_JOBS:-8} VERIF_BUDGET_S=${VERIF_BUDGET_S:-600} ./check $c 2>&1 | grep -v conda)
  rc=$?
  nv=$(echo "$out" | grep -c "^VIOLATION")
  echo "check $c: violations=$nv $(echo "$out" | tail -1 | sed 's/.*-> //')" >> $R
  echo "$out" | grep "fingerprint=" | head -5 | cut -c1-260 | sed 's/^/    /' >> $R
done
git -C /repo worktree remove --force $WT
cat $R
/venv/bin/python - "$P" "$N" "$D" <<'PY'
import json,sys,os
P,N,D=sys.argv[1:4]
am={}
try: am=json.load(open(os.path.join(D,'agent_meta.json')))
except Exception: pass
res=open(os.path.join(D,'result.txt')).read().splitlines()
kv=dict(l.split('=',1) for l in res if '=' in l and not l.startswith(' ') and not l.startswith('check'))
checks=[l for l in res if l.startswith('check ')]
meta={"property":P,"seed":"%s-%s"%(P,N),
 "summary":am.get("summary"),"breaks":am.get("breaks"),"needs":am.get("needs"),
 "confirmed":{"repo_head":kv.get("repo_head"),"patch_applies":kv.get("patch_applies"),"imports":kv.get("import_rc")=="0",
   "demo_exit_without_change":kv.get("demo_without_change_rc"),"demo_exit_with_change":kv.get("demo_with_change_rc"),
   "test_suite_with_change":next((l[7:] for l in res if l.startswith("suite: ")),None)},
 "what_i_ran":["tools/verify_seed.sh %s %s <agent outdir> (scratch worktree of /repo HEAD; baseline pytest command; ./check with VERIF_REPO=<worktree>)"%(P,N)],
 "check_verdicts":checks,
 "caught_by":[l.split()[1].rstrip(':') for l in checks if "violations=0" not in l]}
json.dump(meta,open(os.path.join(D,'meta.json'),'w'),indent=1)
PY
