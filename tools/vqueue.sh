#!/bin/bash
# tools/vqueue.sh <queuefile> : worker popping "SKIP P N outdir checks..." lines
Q=$1
while true; do
  line=$(flock $Q.lock bash -c "head -1 $Q; sed -i 1d $Q")
  [ -z "$line" ] && break
  set -- $line
  skip=$1; P=$2; N=$3; out=$4; shift 4
  SKIP_SUITE=$skip VERIF_JOBS=5 VERIF_BUDGET_S=900 /verif/tools/verify_seed.sh $P $N $out "$@" > /tmp/vs_${P}_${N}_q.log 2>&1
done
